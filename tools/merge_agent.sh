#!/bin/bash
# merge the new files of a builder agent's private copy into /verif; never overwrites existing files
P=$1; SRC=/tmp/agents/$P/verif
cd /verif
echo "== new files"
rsync -a --ignore-existing --exclude '.git' --exclude '.lake' --exclude '.audit' --exclude '__pycache__' --exclude 'replays' --exclude 'evidence' \
  --exclude 'MANIFEST.json' --exclude 'lean/Driver.lean' --exclude 'lean/OptiModel.lean' --out-format='%n' "$SRC/" /verif/ | grep -v '/$'
echo "== existing files that differ in the agent copy (not merged)"
rsync -anc --exclude '.git' --exclude '.lake' --exclude '.audit' --exclude '__pycache__' --exclude 'replays' --exclude 'evidence' \
  --exclude 'MANIFEST.json' --exclude 'lean/Driver.lean' --exclude 'lean/OptiModel.lean' --out-format='%n' "$SRC/" /verif/ | grep -v '/$'
