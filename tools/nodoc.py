import sys,ast
for f in sys.argv[1:]:
    print("=== "+f)
    t=ast.parse(open(f).read())
    for n in ast.walk(t):
        if isinstance(n,(ast.FunctionDef,ast.ClassDef,ast.Module)) and n.body and isinstance(n.body[0],ast.Expr) and isinstance(getattr(n.body[0],'value',None),ast.Constant) and isinstance(n.body[0].value.value,str):
            n.body=n.body[1:] or [ast.Pass()]
    print(ast.unparse(t))
