#!/bin/bash
# tools/reverify_stored.sh [ids...]: re-confirm stored seeds (/verif/seeded/<id>/) against the current /repo HEAD in a
# scratch worktree: patch applies, demo exits 0 without / 1 with the change, and the property's own check (through
# OPTILAND_REPO) reports a VIOLATION.  The test-suite is not re-run here (use verify_seed.sh for that).
# One line per seed: <id> applies=<0|1> demo=<clean>/<mutant> check=<CAUGHT|MISSED> <violation line>
IDS=${@:-$(ls /verif/seeded | grep -E "^C[0-9]+-[0-9]+$")}
mkdir -p /tmp/vs
for id in $IDS; do
  P=${id%-*}; D=/verif/seeded/$id; WT=/tmp/vs/re_$id
  rm -rf $WT; git -C /repo worktree prune; git -C /repo worktree add -q $WT HEAD || exit 2
  PYTHONPATH=$WT /venv/bin/python $D/demo.py > /dev/null 2>&1; c0=$?
  if git -C $WT apply $D/patch.diff 2>/dev/null; then a=1; else a=0; fi
  PYTHONPATH=$WT /venv/bin/python $D/demo.py > /dev/null 2>&1; c1=$?
  out=$(cd /verif && OPTILAND_REPO=$WT VERIF_NO_EVIDENCE=1 ./check $P 2>&1 | grep -E "^VIOLATION" | head -1 | cut -c1-160)
  if [ -n "$out" ]; then r=CAUGHT; else r=MISSED; fi
  echo "$id applies=$a demo=$c0/$c1 check=$r $out"
  git -C /repo worktree remove --force $WT
done
