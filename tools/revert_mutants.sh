#!/bin/bash
# tools/revert_mutants.sh [finding ids...]: for every finding recorded as fixed, build a scratch worktree of /repo HEAD
# with the fix commit(s) reverted and run the property's check on it (OPTILAND_REPO): the defect must be reported again
# (a "fixed:" entry suppresses nothing).  One line per finding.
cd "$(dirname "$0")/.."
mkdir -p /tmp/vs
python3 - "$@" <<'PY' > /tmp/vs/revert_list.txt
import json,sys
want=set(sys.argv[1:])
for k in json.load(open('known_findings.json'))['findings']:
    if k.get('status')=='fixed' and k.get('commit') and (not want or k['id'] in want):
        print(k['id'], k['property'], k['commit'].replace(' ','').replace('+',','))
PY
while read id prop commits; do
  WT=/tmp/vs/rv_${id}_$prop
  rm -rf $WT; git -C /repo worktree prune; git -C /repo worktree add -q $WT HEAD || exit 2
  ok=1
  if [ -f seeded/reverts/$id.diff ]; then
    # the automatic revert conflicts with later commits: hand-made reverse patch
    git -C $WT apply /verif/seeded/reverts/$id.diff || ok=0
  else
    for c in $(echo $commits | tr ',' '\n' | tac); do
      git -C $WT revert -n $c > /dev/null 2>&1 || ok=0
    done
  fi
  if [ $ok = 0 ]; then echo "$id $prop revert-conflict (skipped)"; git -C /repo worktree remove --force $WT; continue; fi
  out=$(OPTILAND_REPO=$WT ./check $prop 2>&1 | grep -E "^VIOLATION|^$prop (ok|FAIL)" | head -2 | tr '\n' ' ' | cut -c1-260)
  case "$out" in *VIOLATION*) r=REPORTED;; *) r=SILENT;; esac
  echo "$id $prop $commits $r $out"
  git -C /repo worktree remove --force $WT
done < /tmp/vs/revert_list.txt
