#!/bin/bash
# tools/run_all.sh <seed> [tier]: every check once with the given seed; one summary line each (and VIOLATION lines)
cd "$(dirname "$0")/.."
S=${1:-0}; T=${2:-quick}
for i in $(seq -w 1 20); do
  VERIF_SEED=$S ./check C$i --tier $T 2>&1 | grep -E "^VIOLATION|^C$i (ok|FAIL)|Traceback|Error" | cut -c1-250
  echo "C$i exit=${PIPESTATUS[0]}"
done
