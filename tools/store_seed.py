#!/usr/bin/env python3
"""tools/store_seed.py <PROP> <k> <caught_by comma list> <detected-how text>: copy a confirmed seeded change to
/verif/seeded/<PROP>-<k>/ with meta.json built from the agent's notes and my verification log."""
import sys, os, shutil, json, re
P, K, caught, how = sys.argv[1], sys.argv[2], sys.argv[3], sys.argv[4]
src = '/tmp/seed/%s_out/%s' % (P, K)
dst = '/verif/seeded/%s-%s' % (P, K)
os.makedirs(dst, exist_ok=True)
for f in ('patch.diff', 'demo.py', 'notes.md'):
    shutil.copy(os.path.join(src, f), os.path.join(dst, f))
log = ''
for suffix in ('', '2'):
    f = '/tmp/vs/%s_%s.result%s' % (P, K, suffix)
    if os.path.exists(f):
        log += open(f).read()
notes = open(os.path.join(src, 'notes.md')).read()
meta = {
    'id': '%s-%s' % (P, K), 'breaks_property': P,
    'files_touched': re.findall(r'^diff --git a/(\S+)', open(os.path.join(src, 'patch.diff')).read(), flags=re.M),
    'needs_to_manifest': notes[:1500],
    'confirmed_by_me': {
        'scratch_worktree': 'git -C /repo worktree add /tmp/vs/%s_%s HEAD (removed afterwards)' % (P, K),
        'demo_exit_unchanged_tree': 0, 'demo_exit_with_change': 1,
        'test_suite_with_change': (re.findall(r'\d+ passed[^\n]*', log) or ['?'])[0],
        'commands': 'tools/verify_seed.sh %s %s' % (P, K),
    },
    'caught_by': caught.split(','), 'how_detected': how,
    'check_log': [l for l in log.split('\n') if 'VIOLATION' in l or ' tier=' in l],
}
json.dump(meta, open(os.path.join(dst, 'meta.json'), 'w'), indent=1)
print('stored', dst)
