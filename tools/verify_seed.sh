#!/bin/bash
# tools/verify_seed.sh <PROP> <k> [checks...]: confirm a seeded change in a scratch worktree:
#  demo exits 1 with the change and 0 without, the whole test-suite passes with it, then run the given
#  checks (default: the property's own) against the mutated tree through OPTILAND_REPO. Removes the worktree.
P=$1; K=$2; shift 2; CHECKS=${@:-$P}
SRC=/tmp/seed/${P}_out/$K
WT=/tmp/vs/${P}_$K
OUT=/tmp/vs/${P}_$K.result${SKIP_TESTS:+2}
mkdir -p /tmp/vs; rm -rf $WT; git -C /repo worktree prune
git -C /repo worktree add -q $WT HEAD || exit 2
cd $WT
{
echo "== $P/$K"
PYTHONPATH=$WT /venv/bin/python $SRC/demo.py > /tmp/vs/${P}_$K.demo0 2>&1; echo "demo_clean_exit=$?"
git apply $SRC/patch.diff && echo "patch_applies=1" || echo "patch_applies=0"
git diff --stat | tail -1
PYTHONPATH=$WT /venv/bin/python $SRC/demo.py > /tmp/vs/${P}_$K.demo1 2>&1; echo "demo_mutant_exit=$?"
if [ -z "$SKIP_TESTS" ]; then PYTHONPATH=$WT /venv/bin/python -m pytest -q -p no:cacheprovider --timeout=900 -W ignore tests 2>&1 | grep -E "passed|failed" | tail -1; else echo "(pytest skipped: already confirmed)"; fi
for c in $CHECKS; do
  (cd /verif && OPTILAND_REPO=$WT ./check $c 2>&1 | grep -E "VIOLATION|^$c (ok|FAIL)" | cut -c1-220)
done
} > $OUT 2>&1
cd /; git -C /repo worktree remove --force $WT
cat $OUT
